package main

// model.go: repository-specific structure discovered semantically (no hard-coded line numbers):
// the connection loop, the executor table, the response writer, goroutine roots.

import (
	"go/token"
	"go/types"
	"sort"
	"strings"

	"golang.org/x/tools/go/callgraph"
	"golang.org/x/tools/go/ssa"
)

const (
	nParserNext   = "(*" + pkgProto + ".Parser).Next"
	nArrayNext    = "(*" + pkgProto + ".Array).Next"
	nRegisterExec = "(*" + pkgRedis + ".Server).RegisterExexutor"
	nExecuteCmd   = "(*" + pkgRedis + ".Server).executeCommand"
	nRESPBytes    = "(*" + pkgProto + ".Message).RESPBytes"
	nArrRESPBytes = "(*" + pkgProto + ".Array).RESPBytes"
	nNewErrorMsg  = pkgRedis + ".NewErrorMessage"
)

// ConnLoop describes a per-connection request loop.
type ConnLoop struct {
	Fn     *ssa.Function
	Next   *ssa.Call // parser.Next()
	Loop   *Loop
	Handle *ssa.Call   // call taking the parsed message
	Resp   []*ssa.Call // calls into response writers, inside the loop
}

// connLoops finds functions of the framework that call Parser.Next inside a loop.
func (p *Program) connLoops() []*ConnLoop {
	var out []*ConnLoop
	for _, fn := range p.RepoFuncs(pkgRedis) {
		if strings.HasPrefix(fnPkgPath(fn), pkgProto) {
			continue
		}
		var next *ssa.Call
		allInstrs(fn, func(ins ssa.Instruction) {
			if c, ok := isCall(ins, nParserNext); ok && next == nil {
				next = c
			}
		})
		if next == nil {
			continue
		}
		cl := &ConnLoop{Fn: fn, Next: next}
		for _, l := range naturalLoops(fn) {
			if l.Blocks[next.Block()] {
				if cl.Loop == nil || len(l.Blocks) < len(cl.Loop.Blocks) {
					cl.Loop = l
				}
			}
		}
		// the handle call: a call in repo taking (the stripped) message result of Next
		writers := p.connWriters()
		handleScore := 0
		allInstrs(fn, func(ins ssa.Instruction) {
			c, ok := ins.(*ssa.Call)
			if !ok {
				return
			}
			callee := staticCallee(c.Common())
			if callee == nil || !inRepo(callee) {
				return
			}
			// a response call: a call in the loop to the response writer, or to a framework function
			// through which the writer is reached (a helper wrapping it)
			if cl.Loop != nil && cl.Loop.Blocks[c.Block()] && inFramework(callee) && (writers[callee] || reachesWriter(p, callee, writers)) {
				isHandle := false
				for _, a := range c.Common().Args {
					if ex, ok := strip(a).(*ssa.Extract); ok && ex.Tuple == next && ex.Index == 0 {
						isHandle = true
					}
				}
				if !isHandle {
					cl.Resp = append(cl.Resp, c)
				}
			}
			for i, a := range c.Common().Args {
				if ex, ok := strip(a).(*ssa.Extract); ok && ex.Tuple == next && ex.Index == 0 {
					// the handle call is the one that takes the request as an argument and answers with
					// a message; a method of the message itself (IsArray, DebugString, a summary for a
					// log line) only looks at it and is the handle only if nothing else is
					score := 1
					if !(i == 0 && c.Common().Signature().Recv() != nil && strings.HasPrefix(fnPkgPath(callee), pkgProto)) {
						score = 2
						if tup, isT := c.Type().(*types.Tuple); isT && tup.Len() == 2 && isErrorType(tup.At(1).Type()) && isProtoMsgOrArray(tup.At(0).Type()) {
							score = 3
						}
					}
					if score > handleScore {
						cl.Handle, handleScore = c, score
					}
				}
			}
		})
		out = append(out, cl)
	}
	return out
}

// isConnWriteCall reports whether the call can put bytes on a client connection: a Write /
// WriteString / ReadFrom through net.Conn, io.Writer, *tls.Conn, *redis.Conn, or io.Copy* /
// io.WriteString / fmt.Fprint* whose destination is such a value.
func isConnWriteCall(cc *ssa.CallCommon) bool {
	if passThroughForward[cc] {
		return false // the forwarding call inside a transparent Write wrapper: the wrapper's callers are the write sites
	}
	return isConnWriteCallRaw(cc)
}

// passThroughForward: the one forwarding call inside a transparent transport wrapper
//
//	func (c *Conn) Write(b []byte) (int, error) { n, err := c.Conn.Write(b); <count n>; return n, err }
//
// The wrapper adds nothing to the byte stream; whoever calls it is the write site.
var passThroughForward = map[*ssa.CallCommon]bool{}

func computePassThroughWriters(p *Program) {
	passThroughForward = map[*ssa.CallCommon]bool{}
	for _, fn := range p.RepoFuncs(modPath) {
		if !inProd(fn) || fn.Blocks == nil || fn.Signature.Recv() == nil || fn.Name() != "Write" || len(fn.Params) != 2 {
			continue
		}
		if !isConnLikeType(fn.Params[0].Type()) || !isByteSlice(fn.Params[1].Type()) {
			continue
		}
		res := fn.Signature.Results()
		if res.Len() != 2 || !isErrorType(res.At(1).Type()) {
			continue
		}
		var fwd *ssa.Call
		pure := true
		allInstrs(fn, func(ins ssa.Instruction) {
			switch x := ins.(type) {
			case *ssa.Call:
				cc := x.Common()
				if _, isB := cc.Value.(*ssa.Builtin); isB {
					return
				}
				if isConnWriteCallRaw(cc) {
					if fwd != nil {
						pure = false
					}
					fwd = x
					return
				}
				if n := calleeName(cc); strings.HasPrefix(n, "(*sync/atomic.") || strings.HasPrefix(n, "sync/atomic.") {
					return
				}
				pure = false
			case *ssa.Defer, *ssa.Go, *ssa.Send, *ssa.MapUpdate, *ssa.Panic, *ssa.Store:
				pure = false
			}
		})
		if fwd == nil || !pure {
			continue
		}
		cc := fwd.Common()
		// forwards its own parameter to the connection embedded in its receiver
		args := cc.Args
		recv := cc.Value
		if !cc.IsInvoke() && len(cc.Args) > 0 {
			recv, args = cc.Args[0], cc.Args[1:]
		}
		if len(args) != 1 || strip(args[0]) != ssa.Value(fn.Params[1]) {
			continue
		}
		if connObjectOf(recv) != ssa.Value(fn.Params[0]) {
			continue
		}
		ok := true
		for _, r := range returnsOf(fn) {
			ex0, is0 := strip(retOperand(r, 0)).(*ssa.Extract)
			ex1, is1 := strip(retOperand(r, 1)).(*ssa.Extract)
			if !is0 || !is1 || ex0.Tuple != ssa.Value(fwd) || ex1.Tuple != ssa.Value(fwd) || ex0.Index != 0 || ex1.Index != 1 {
				ok = false
			}
		}
		if ok {
			passThroughForward[cc] = true
		}
	}
}

// connObjectOf: the wrapper object behind a load of its embedded field.
func connObjectOf(v ssa.Value) ssa.Value {
	v = strip(v)
	for d := 0; d < 3; d++ {
		ld, ok := v.(*ssa.UnOp)
		if !ok || ld.Op != token.MUL {
			break
		}
		fa, ok := ld.X.(*ssa.FieldAddr)
		if !ok {
			break
		}
		st := derefStruct(fa.X.Type())
		if st == nil || !st.Field(fa.Field).Embedded() {
			break
		}
		v = strip(fa.X)
	}
	return v
}

func isConnWriteCallRaw(cc *ssa.CallCommon) bool {
	n := calleeName(cc)
	switch n {
	case "(net.Conn).Write", "(io.Writer).Write", "(*crypto/tls.Conn).Write", "(io.StringWriter).WriteString",
		"(io.ReaderFrom).ReadFrom", "(*net.TCPConn).Write", "(*net.TCPConn).ReadFrom":
		return true
	case "io.Copy", "io.CopyN", "io.CopyBuffer", "io.WriteString", "fmt.Fprint", "fmt.Fprintf", "fmt.Fprintln":
		if len(cc.Args) > 0 {
			return isConnLikeType(cc.Args[0].Type()) || isConnLikeType(strip(cc.Args[0]).Type())
		}
	}
	// method Write promoted through *redis.Conn (embedded net.Conn): go/ssa emits a call to the
	// wrapper or an invoke on the embedded field; both are covered above. Also catch
	// (*redis.Conn).Write wrappers by name.
	if strings.HasSuffix(n, ".Write") || strings.HasSuffix(n, ".WriteString") {
		if cc.IsInvoke() {
			return isConnLikeType(cc.Value.Type())
		}
		if len(cc.Args) > 0 && isConnLikeType(cc.Args[0].Type()) {
			return true
		}
	}
	// the connection handed, as a writer, to code outside the repository (net.Buffers.WriteTo,
	// an encoder, a bufio.Writer, ...): whatever that code emits reaches the client
	// (a call through a function value — a handler passed as a parameter — has no static callee:
	// its targets are closures of the repository, analysed where they are defined)
	_, viaValue := cc.Value.(*ssa.Parameter)
	if _, fv := cc.Value.(*ssa.FreeVar); fv {
		viaValue = true
	}
	if _, ld := cc.Value.(*ssa.UnOp); ld {
		viaValue = true
	}
	if callee := staticCallee(cc); !cc.IsInvoke() && !viaValue && (callee == nil || !inRepo(callee)) && !nameIn(n, "crypto/tls.Server", "crypto/tls.Client") {
		sig, _ := cc.Value.Type().Underlying().(*types.Signature)
		if sig != nil {
			off := 0
			if sig.Recv() != nil {
				off = 1
			}
			for i, a := range cc.Args {
				if !(isConnLikeType(a.Type()) || isConnLikeType(strip(a).Type())) {
					continue
				}
				pi := i - off
				if pi < 0 || pi >= sig.Params().Len() {
					continue
				}
				if it, ok := sig.Params().At(pi).Type().Underlying().(*types.Interface); ok {
					for m := 0; m < it.NumMethods(); m++ {
						if it.Method(m).Name() == "Write" {
							return true
						}
					}
				}
			}
		}
	}
	return false
}

func isConnLikeType(t types.Type) bool {
	s := t.String()
	switch s {
	case "net.Conn", "io.Writer", "*crypto/tls.Conn", "*net.TCPConn", "*" + pkgRedis + ".Conn", pkgAuth + ".Conn", "io.ReadWriter", "io.ReadWriteCloser", "io.WriteCloser":
		return true
	}
	return false
}

// connWriters: repository functions that contain a connection write site.
func (p *Program) connWriters() map[*ssa.Function]bool {
	out := map[*ssa.Function]bool{}
	for _, fn := range p.RepoFuncs(modPath) {
		if !inProd(fn) {
			continue
		}
		allInstrs(fn, func(ins ssa.Instruction) {
			if cc := callCommon(ins); cc != nil && isConnWriteCall(cc) {
				// io.Writer writes into local buffers are not connection writes: the receiver must
				// not be provably a local *bytes.Buffer / strings.Builder.
				if cc.IsInvoke() && isLocalBuffer(cc.Value) {
					return
				}
				if !cc.IsInvoke() && len(cc.Args) > 0 && isLocalBuffer(cc.Args[0]) {
					return
				}
				out[fn] = true
			}
		})
	}
	return out
}

func isLocalBuffer(v ssa.Value) bool {
	v = strip(v)
	t := v.Type().String()
	return t == "*bytes.Buffer" || t == "*strings.Builder" || t == "*bufio.Writer" && false
}

// Executor is one registered command executor.
type Executor struct {
	Name string
	Fn   *ssa.Function
	Reg  *ssa.Call
	// executors made by a factory (func(flag) Executor { return func(...) {...} }): the constant
	// each captured variable of the closure holds for this registration
	FreeConst map[*ssa.FreeVar]*ssa.Const
	// ... and, for captured parameters bound to something else (an option struct literal), the
	// argument value at the factory call, to be evaluated in the registering function
	FreeArg map[*ssa.FreeVar]ssa.Value
}

// executors reads the (name, closure) pairs registered with RegisterExexutor in the framework.
func (p *Program) executors() (list []Executor, unresolved []*ssa.Call) {
	for _, fn := range p.RepoFuncs(pkgRedis) {
		allInstrs(fn, func(ins ssa.Instruction) {
			c, ok := isCall(ins, nRegisterExec)
			if !ok {
				return
			}
			args := c.Common().Args // recv, name, executor
			if len(args) != 3 {
				unresolved = append(unresolved, c)
				return
			}
			name, okN := constString(args[1])
			var ef *ssa.Function
			var freeConst map[*ssa.FreeVar]*ssa.Const
			var freeArg map[*ssa.FreeVar]ssa.Value
			switch x := strip(args[2]).(type) {
			case *ssa.MakeClosure:
				ef, _ = x.Fn.(*ssa.Function)
			case *ssa.Function:
				ef = x
			case *ssa.Call:
				ef, freeConst, freeArg = factoryClosureArgs(x)
			}
			if !okN && ef == nil && apiParam(args[1]) && apiParam(args[2]) {
				// an exported function forwarding its own (name, executor) parameters to the
				// registration API (WithExecutor(name, exec) beside RegisterExexutor): the
				// application's registration, made outside the repository like any other
				return
			}
			if !okN || ef == nil {
				unresolved = append(unresolved, c)
				return
			}
			list = append(list, Executor{Name: name, Fn: ef, Reg: c, FreeConst: freeConst, FreeArg: freeArg})
		})
	}
	sort.Slice(list, func(i, j int) bool { return list[i].Name < list[j].Name })
	return
}

// factoryClosure: call is fac(consts...) where the framework function fac returns, on its only
// return, a closure; the closure and the constants its captured parameters hold.
func factoryClosure(call *ssa.Call) (*ssa.Function, map[*ssa.FreeVar]*ssa.Const) {
	f, c, _ := factoryClosureArgs(call)
	return f, c
}

func factoryClosureArgs(call *ssa.Call) (*ssa.Function, map[*ssa.FreeVar]*ssa.Const, map[*ssa.FreeVar]ssa.Value) {
	fac := staticCallee(call.Common())
	if fac == nil || fac.Blocks == nil || !inFramework(fac) {
		return nil, nil, nil
	}
	rets := returnsOf(fac)
	if len(rets) != 1 || len(rets[0].Results) != 1 {
		return nil, nil, nil
	}
	mc, ok := strip(retOperand(rets[0], 0)).(*ssa.MakeClosure)
	if !ok {
		return nil, nil, nil
	}
	fn, ok := mc.Fn.(*ssa.Function)
	if !ok {
		return nil, nil, nil
	}
	consts := map[*ssa.FreeVar]*ssa.Const{}
	others := map[*ssa.FreeVar]ssa.Value{}
	for i, fv := range fn.FreeVars {
		if i >= len(mc.Bindings) {
			break
		}
		var src ssa.Value = mc.Bindings[i]
		if al, ok := src.(*ssa.Alloc); ok {
			src = singleStore(al)
		}
		par, ok := src.(*ssa.Parameter)
		if !ok {
			continue
		}
		for j, fp := range fac.Params {
			if fp == par && j < len(call.Common().Args) {
				if cv, ok := call.Common().Args[j].(*ssa.Const); ok {
					consts[fv] = cv
				} else {
					others[fv] = call.Common().Args[j]
				}
			}
		}
	}
	return fn, consts, others
}

// GoSite is a go statement.
type GoSite struct {
	In     *ssa.Function
	Go     *ssa.Go
	Target *ssa.Function // static target or closure
}

// goSites lists `go` instructions in functions with the package prefix.
func (p *Program) goSites(prefix string) []GoSite {
	var out []GoSite
	for _, fn := range p.RepoFuncs(prefix) {
		allInstrs(fn, func(ins ssa.Instruction) {
			if g, ok := ins.(*ssa.Go); ok {
				if t := staticCallee(g.Common()); t != nil {
					out = append(out, GoSite{In: fn, Go: g, Target: peelThinWrapper(t)})
					return
				}
				// a function value: the targets the call graph resolves (closures handed in
				// by the callers), each looked through when it only forwards to one function
				ts := p.calleesAt(g)
				sort.Slice(ts, func(i, j int) bool { return fnName(ts[i]) < fnName(ts[j]) })
				seen := map[*ssa.Function]bool{}
				for _, t := range ts {
					t = peelThinWrapper(t)
					if t != nil && !seen[t] {
						seen[t] = true
						out = append(out, GoSite{In: fn, Go: g, Target: t})
					}
				}
				if len(ts) == 0 {
					out = append(out, GoSite{In: fn, Go: g})
				}
			}
		})
	}
	return out
}

// peelThinWrapper: a function whose body is one call of a repository function — possibly followed
// by inert reporting of its result (branching on it, logging, formatting) — stands for that
// function: a closure adapting a signature, or "go func(){ if err := f(c); err != nil { log(err) } }()".
// Nothing else may happen in it: no defer, go, panic, send, store outside its own frame.
func peelThinWrapper(f *ssa.Function) *ssa.Function {
	for d := 0; d < 3 && f != nil; d++ {
		if f.Blocks == nil {
			return f
		}
		var only *ssa.Function
		n := 0
		for _, b := range f.Blocks {
			for _, ins := range b.Instrs {
				switch x := ins.(type) {
				case *ssa.Call:
					if inertCall(x.Common()) {
						continue
					}
					n++
					only = staticCallee(x.Common())
				case *ssa.Store:
					if _, local := x.Addr.(*ssa.IndexAddr); !local {
						if al, ok := x.Addr.(*ssa.Alloc); !ok || al.Heap {
							return f
						}
					} else if al, ok := x.Addr.(*ssa.IndexAddr).X.(*ssa.Alloc); !ok || al.Comment != "varargs" {
						return f
					}
				case *ssa.Alloc:
					if x.Heap && x.Comment != "varargs" {
						return f
					}
				case *ssa.Defer:
					// a deferred bookkeeping call (a counter stepped down under a mutex) does not
					// make the wrapper a different goroutine body
					if g := staticCallee(x.Common()); g == nil || !isBookkeepingFn(g) {
						return f
					}
				case *ssa.RunDefers:
				case *ssa.Return, *ssa.DebugRef, *ssa.UnOp, *ssa.FieldAddr, *ssa.MakeInterface, *ssa.ChangeInterface, *ssa.ChangeType,
					*ssa.If, *ssa.Jump, *ssa.Extract, *ssa.BinOp, *ssa.Phi, *ssa.Slice, *ssa.IndexAddr, *ssa.Convert:
				default:
					return f
				}
			}
		}
		if n != 1 || only == nil || only.Blocks == nil || !inRepo(only) {
			return f
		}
		if len(f.Blocks) > 1 && len(f.Blocks) > 4 {
			return f
		}
		f = only
	}
	return f
}

// inertCall: reporting only — the logger, fmt, errors, and Error() on an error value.
func inertCall(cc *ssa.CallCommon) bool {
	if cc.IsInvoke() {
		return cc.Method.Name() == "Error" && cc.Method.Type().(*types.Signature).Params().Len() == 0
	}
	cal := staticCallee(cc)
	if cal == nil || cal.Pkg == nil {
		return false
	}
	switch path := cal.Pkg.Pkg.Path(); {
	case path == "fmt", path == "errors", strings.HasSuffix(path, "go-logger/log"):
		return true
	}
	return false
}

// repoReach returns the repository functions reachable from the given functions following
// call-graph edges, never expanding through non-repository functions except to find repository
// callees one level behind an interface dispatch (VTA already resolves those edges to concrete
// callees, so only edges whose callee is in a package accepted by 'in' are followed).
func (p *Program) repoReach(from []*ssa.Function, in func(*ssa.Function) bool) map[*ssa.Function]bool {
	cg := p.CallGraph()
	seen := map[*ssa.Function]bool{}
	var stack []*ssa.Function
	for _, f := range from {
		if f != nil {
			stack = append(stack, f)
		}
	}
	for len(stack) > 0 {
		f := stack[len(stack)-1]
		stack = stack[:len(stack)-1]
		if seen[f] {
			continue
		}
		seen[f] = true
		n := cg.Nodes[f]
		if n == nil {
			continue
		}
		for _, e := range n.Out {
			callee := e.Callee.Func
			if callee == nil || seen[callee] {
				continue
			}
			if in(callee) {
				stack = append(stack, callee)
			}
		}
		// closures defined in f that are passed around are reached through VTA edges; also
		// include anonymous functions syntactically nested in f when they are deferred/called
		for _, a := range f.AnonFuncs {
			if in(a) && !seen[a] && closureUsedDirectly(f, a) {
				stack = append(stack, a)
			}
		}
	}
	return seen
}

// closureUsedDirectly: the anonymous function is called, deferred or go'ed inside its parent.
func closureUsedDirectly(parent, anon *ssa.Function) bool {
	used := false
	allInstrs(parent, func(ins ssa.Instruction) {
		if cc := callCommon(ins); cc != nil {
			if staticCallee(cc) == anon {
				used = true
			}
		}
	})
	return used
}

// calleesAt returns the possible callees of a call instruction (static, else call-graph edges).
func (p *Program) calleesAt(ci ssa.CallInstruction) []*ssa.Function {
	if f := staticCallee(ci.Common()); f != nil {
		return []*ssa.Function{f}
	}
	cg := p.CallGraph()
	n := cg.Nodes[ci.Parent()]
	if n == nil {
		return nil
	}
	var out []*ssa.Function
	seen := map[*ssa.Function]bool{}
	for _, e := range n.Out {
		if e.Site == ci && e.Callee.Func != nil && !seen[e.Callee.Func] {
			seen[e.Callee.Func] = true
			out = append(out, e.Callee.Func)
		}
	}
	sort.Slice(out, func(i, j int) bool { return out[i].String() < out[j].String() })
	return out
}

var _ = callgraph.CalleesOf

// isLoadOfGlobal reports whether v is a load of the named package-level variable.
func isLoadOfGlobal(v ssa.Value, pkg, name string) bool {
	u, ok := v.(*ssa.UnOp)
	if !ok || u.Op != token.MUL {
		return false
	}
	g, ok := u.X.(*ssa.Global)
	return ok && g.Pkg != nil && g.Pkg.Pkg.Path() == pkg && g.Name() == name
}

// isErrQuitTest: call errors.Is(x, ErrQuit) or x == ErrQuit; returns x.
func isErrQuitTest(a Atom) (ssa.Value, bool) {
	switch a.Kind {
	case "call":
		if calleeName(a.Call.Common()) == "errors.Is" && len(a.Call.Common().Args) == 2 && isLoadOfGlobal(a.Call.Common().Args[1], pkgRedis, "ErrQuit") {
			return strip(a.Call.Common().Args[0]), true
		}
	case "eq":
		if isLoadOfGlobal(a.Y, pkgRedis, "ErrQuit") {
			return a.X, true
		}
		if isLoadOfGlobal(a.X, pkgRedis, "ErrQuit") {
			return a.Y, true
		}
	}
	return nil, false
}

// edgeFacts: facts that hold along the CFG edge pred -> pred.Succs[idx].
func edgeFacts(pred *ssa.BasicBlock, idx int) []Atom {
	out := factsAt(pred)
	if len(pred.Instrs) > 0 {
		if iff, ok := pred.Instrs[len(pred.Instrs)-1].(*ssa.If); ok && len(pred.Succs) == 2 && pred.Succs[0] != pred.Succs[1] {
			out = append(out, atomsOf(iff.Cond, idx == 0)...)
		}
	}
	return out
}

func succIndex(pred, succ *ssa.BasicBlock) int {
	for i, s := range pred.Succs {
		if s == succ {
			return i
		}
	}
	return -1
}

// isDispatcherCall: the call targets the function that looks the executor up in the command
// table (found semantically, whatever it is called).
func (p *Program) isDispatcherCall(cc *ssa.CallCommon) bool {
	f := staticCallee(cc)
	return f != nil && p.isDispatcher(f)
}

func (p *Program) isDispatcher(f *ssa.Function) bool {
	if p.dispatcherFns == nil {
		p.dispatcherFns = map[*ssa.Function]bool{}
		for _, d := range p.dispatchers() {
			p.dispatcherFns[d.Fn] = true
		}
	}
	return p.dispatcherFns[f]
}

// connConstructor: the function of package redis that allocates and returns a *Conn.
func (p *Program) connConstructor() *ssa.Function {
	for _, fn := range p.RepoFuncs(pkgRedis) {
		if fnPkgPath(fn) != pkgRedis || fn.Signature.Recv() != nil || fn.Parent() != nil {
			continue
		}
		res := fn.Signature.Results()
		if res.Len() != 1 || res.At(0).Type().String() != "*"+pkgRedis+".Conn" {
			continue
		}
		alloc := false
		allInstrs(fn, func(ins ssa.Instruction) {
			if a, ok := ins.(*ssa.Alloc); ok && a.Heap && deref(a.Type()).String() == pkgRedis+".Conn" {
				alloc = true
			}
		})
		// also accept constructors that obtain the object elsewhere: identified by wrapping a net.Conn parameter
		wraps := false
		for _, par := range fn.Params {
			if par.Type().String() == "net.Conn" {
				wraps = true
			}
		}
		if alloc || wraps {
			return fn
		}
	}
	return nil
}

func (p *Program) isConnConstructorCall(cc *ssa.CallCommon) bool {
	f := staticCallee(cc)
	return f != nil && f == p.connConstructor()
}

// isBookkeepingFn: a repository function that only locks/unlocks mutexes, uses atomics and
// reads/writes scalar fields (steps a counter): it cannot block on a client, cannot panic on
// client data, and touches no connection.
func isBookkeepingFn(f *ssa.Function) bool {
	if f == nil || f.Blocks == nil || !inRepo(f) {
		return false
	}
	ok := true
	allInstrs(f, func(ins ssa.Instruction) {
		switch x := ins.(type) {
		case ssa.CallInstruction:
			n := calleeName(x.Common())
			if strings.HasPrefix(n, "(*sync.") || strings.HasPrefix(n, "(*sync/atomic.") || strings.HasPrefix(n, "sync/atomic.") {
				return
			}
			if _, isB := x.Common().Value.(*ssa.Builtin); isB {
				return
			}
			ok = false
		case *ssa.IndexAddr, *ssa.Index, *ssa.Slice, *ssa.Lookup, *ssa.MapUpdate, *ssa.TypeAssert, *ssa.Send, *ssa.Select, *ssa.Panic, *ssa.MakeSlice, *ssa.MakeMap, *ssa.MakeChan:
			ok = false
		}
	})
	return ok
}

// apiParam: the value is a parameter of an exported function or method, possibly seen from a
// closure of that function through a captured variable.
func apiParam(v ssa.Value) bool {
	for k := 0; k < 4; k++ {
		if u, ok := v.(*ssa.UnOp); ok && u.Op == token.MUL {
			v = u.X
			continue
		}
		break
	}
	switch x := v.(type) {
	case *ssa.Parameter:
		f := x.Parent()
		return f != nil && f.Object() != nil && f.Object().Exported()
	case *ssa.FreeVar:
		inner := x.Parent()
		outer := inner.Parent()
		if outer == nil {
			return false
		}
		idx := -1
		for i, fv := range inner.FreeVars {
			if fv == x {
				idx = i
			}
		}
		found := false
		allInstrs(outer, func(ins ssa.Instruction) {
			mc, ok := ins.(*ssa.MakeClosure)
			if !ok || mc.Fn != ssa.Value(inner) || idx < 0 || idx >= len(mc.Bindings) {
				return
			}
			b := mc.Bindings[idx]
			if al, isAl := b.(*ssa.Alloc); isAl {
				if sv := singleStore(al); sv != nil {
					b = sv
				}
			}
			if apiParam(b) {
				found = true
			}
		})
		return found
	}
	if s := strip(v); s != v {
		return apiParam(s)
	}
	return false
}
