package main

// sanloop.go: recognition of a hand-written CR/LF sanitiser: a fresh make([]byte, n) filled
// element by element. A fresh slice is zero-filled, so the result is free of CR and LF when
// every byte ever stored into it is (a constant other than CR/LF, or a value under facts that
// exclude both), and the slice is handed to nothing else that could write into it.

import (
	"fmt"
	"go/token"

	"golang.org/x/tools/go/ssa"
)

// safeByte: v cannot be CR or LF given facts.
func safeByte(v ssa.Value, facts []Atom, depth int) bool {
	if depth > 4 {
		return false
	}
	if c, ok := constInt(v); ok {
		return c != '\r' && c != '\n'
	}
	sv := strip(v)
	ne := map[int64]bool{}
	for _, at := range facts {
		if at.Kind != "eq" {
			continue
		}
		for _, pr := range [][2]ssa.Value{{at.X, at.Y}, {at.Y, at.X}} {
			if pr[0] == sv {
				if c, ok := constInt(pr[1]); ok {
					if !at.Pos {
						ne[c] = true
					} else if c != '\r' && c != '\n' {
						return true // pinned to another constant
					}
				}
			}
		}
	}
	if ne['\r'] && ne['\n'] {
		return true
	}
	if phi, ok := sv.(*ssa.Phi); ok {
		for i, e := range phi.Edges {
			pred := phi.Block().Preds[i]
			fs := append(append([]Atom{}, facts...), edgeFacts(pred, succIndex(pred, phi.Block()))...)
			if !safeByte(e, fs, depth+1) {
				return false
			}
		}
		return len(phi.Edges) > 0
	}
	if cv, ok := sv.(*ssa.Convert); ok {
		return safeByte(cv.X, facts, depth+1)
	}
	return false
}

// pinnedToLineBreak: facts force v to be CR or LF (an equality with one of them, or a true
// call of a predicate helper every true-path of which pins its argument to CR or LF).
func pinnedToLineBreak(v ssa.Value, facts []Atom) bool {
	sv := strip(v)
	for _, at := range facts {
		if at.Kind == "eq" && at.Pos {
			for _, pr := range [][2]ssa.Value{{at.X, at.Y}, {at.Y, at.X}} {
				if pr[0] == sv {
					if c, ok := constInt(pr[1]); ok && (c == '\r' || c == '\n') {
						return true
					}
				}
			}
		}
		if at.Kind == "call" && at.Pos {
			h := staticCallee(at.Call.Common())
			args := callArgs(at.Call.Common())
			if h == nil || h.Blocks == nil || !inRepo(h) || len(args) != 1 || strip(args[0]) != sv || len(h.Params) != 1 {
				continue
			}
			if predicateTrueOnlyFor(h, h.Params[0], map[int64]bool{'\r': true, '\n': true}) {
				return true
			}
		}
	}
	return false
}

// predicateTrueOnlyFor: every way the boolean function h can return true pins par to one of set.
func predicateTrueOnlyFor(h *ssa.Function, par *ssa.Parameter, set map[int64]bool) bool {
	pinned := func(facts []Atom) bool {
		for _, at := range facts {
			if at.Kind == "eq" && at.Pos {
				for _, pr := range [][2]ssa.Value{{at.X, at.Y}, {at.Y, at.X}} {
					if strip(pr[0]) == ssa.Value(par) {
						if c, ok := constInt(pr[1]); ok && set[c] {
							return true
						}
					}
				}
			}
		}
		return false
	}
	var trueOnly func(v ssa.Value, facts []Atom, d int) bool
	trueOnly = func(v ssa.Value, facts []Atom, d int) bool {
		if d > 4 {
			return false
		}
		if cb, ok := constBool(v); ok {
			return !cb || pinned(facts)
		}
		if phi, ok := v.(*ssa.Phi); ok {
			for i, e := range phi.Edges {
				pred := phi.Block().Preds[i]
				fs := append(append([]Atom{}, facts...), edgeFacts(pred, succIndex(pred, phi.Block()))...)
				if !trueOnly(e, fs, d+1) {
					return false
				}
			}
			return true
		}
		// a comparison: true adds its own atoms
		return pinned(append(append([]Atom{}, facts...), atomsOf(v, true)...))
	}
	for _, r := range returnsOf(h) {
		if len(r.Results) != 1 || !trueOnly(r.Results[0], factsAt(r.Block()), 0) {
			return false
		}
	}
	return true
}

// sanitiserLoop analyses a returned make([]byte, n) inside fn(par).
func sanitiserLoop(mk *ssa.MakeSlice, par *ssa.Parameter) (map[byte]bool, bool, string) {
	none := map[byte]bool{}
	if !isByteSlice(mk.Type()) || mk.Referrers() == nil {
		return none, false, "not a byte slice"
	}
	var stores []*ssa.Store
	var storeIdx []ssa.Value
	var visit func(v ssa.Value, d int) string
	visit = func(v ssa.Value, d int) string {
		if v.Referrers() == nil || d > 3 {
			return ""
		}
		for _, r := range *v.Referrers() {
			switch x := r.(type) {
			case *ssa.IndexAddr:
				if x.Referrers() == nil {
					continue
				}
				for _, rr := range *x.Referrers() {
					switch y := rr.(type) {
					case *ssa.Store:
						if y.Addr != ssa.Value(x) {
							return "an element address is stored somewhere"
						}
						stores = append(stores, y)
						storeIdx = append(storeIdx, x.Index)
					case *ssa.UnOp, *ssa.DebugRef:
					default:
						return "an element address escapes: " + rr.String()
					}
				}
			case *ssa.Return, *ssa.DebugRef:
			case *ssa.Phi:
				if s := visit(x, d+1); s != "" {
					return s
				}
			case *ssa.Slice:
				if s := visit(x, d+1); s != "" {
					return s
				}
			case *ssa.Call:
				if b, ok := x.Common().Value.(*ssa.Builtin); ok && (b.Name() == "len" || b.Name() == "cap") {
					continue
				}
				return "the fresh slice is passed to " + calleeName(x.Common()) + ", which may write any byte into it"
			default:
				return "the fresh slice is used by " + r.String()
			}
		}
		return ""
	}
	if why := visit(mk, 0); why != "" {
		return none, false, why
	}
	for _, st := range stores {
		if !safeByte(st.Val, factsAt(st.Block()), 0) {
			return none, false, fmt.Sprintf("a byte stored into the result (%s) is not proven different from CR and LF", st.Val.Name())
		}
	}
	rem := map[byte]bool{'\r': true, '\n': true}
	// byte preservation: one store, out[i] = in[i] or a replacement taken only for CR/LF, for
	// every i in [0, len(in)) with len(out) == len(in)
	bp := false
	if len(stores) == 1 && sameLin(linOf(mk.Len), lenOf(par)) {
		st, idx := stores[0], storeIdx[0]
		isSrc := func(v ssa.Value) bool {
			ld, ok := strip(v).(*ssa.UnOp)
			if !ok || ld.Op != token.MUL {
				return false
			}
			ia, ok := ld.X.(*ssa.IndexAddr)
			return ok && strip(ia.X) == ssa.Value(par) && sameLin(linOf(ia.Index), linOf(idx))
		}
		valOK := isSrc(st.Val)
		if phi, ok := strip(st.Val).(*ssa.Phi); ok && !valOK {
			valOK = true
			var src ssa.Value
			for _, e := range phi.Edges {
				if isSrc(e) {
					src = e
				}
			}
			for i, e := range phi.Edges {
				if isSrc(e) {
					continue
				}
				pred := phi.Block().Preds[i]
				if _, isC := constInt(e); !isC || src == nil || !pinnedToLineBreak(src, edgeFacts(pred, succIndex(pred, phi.Block()))) {
					valOK = false
				}
			}
		}
		if valOK {
			// the store runs once per index of a full counter loop
			for _, l := range naturalLoops(mk.Parent()) {
				if !l.Blocks[st.Block()] {
					continue
				}
				il := linOf(idx)
				ph, ok := il.base.(*ssa.Phi)
				if !ok || il.isLen || ph.Block() != l.Header {
					continue
				}
				init, step := false, false
				for i, e := range ph.Edges {
					if l.Blocks[l.Header.Preds[i]] {
						if ln := linOf(e); ln.base == ssa.Value(ph) && ln.off == 1 {
							step = true
						}
					} else if cv, ok := constInt(e); ok && cv+il.off == 0 {
						init = true
					}
				}
				domAll := true
				for _, lt := range l.Latch {
					if !st.Block().Dominates(lt) {
						domAll = false
					}
				}
				// exits only on counter >= len
				exitOK := true
				for _, b := range l.sortedBlocks() {
					for k, s := range b.Succs {
						if l.Blocks[s] {
							continue
						}
						okExit := false
						for _, iq := range ineqsOf(edgeFacts(b, k)) {
							if (sameBase(iq.x, lenOf(par)) || sameBase(iq.x, linOf(mk.Len))) && iq.y.base == ssa.Value(ph) && !iq.y.isLen {
								okExit = true
							}
						}
						if !okExit {
							exitOK = false
						}
					}
				}
				if init && step && domAll && exitOK {
					bp = true
				}
			}
		}
	}
	return rem, bp, "fresh slice filled with bytes proven different from CR and LF"
}

func sameLin(a, b lin) bool { return sameBase(a, b) && a.off == b.off }
