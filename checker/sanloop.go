package main

// sanloop.go: recognition of a hand-written CR/LF sanitiser: a fresh make([]byte, n) filled
// element by element. A fresh slice is zero-filled, so the result is free of CR and LF when
// every byte ever stored into it is (a constant other than CR/LF, or a value under facts that
// exclude both), and the slice is handed to nothing else that could write into it.

import (
	"fmt"
	"go/token"

	"golang.org/x/tools/go/ssa"
)

// safeByte: v cannot be CR or LF given facts.
func safeByte(v ssa.Value, facts []Atom, depth int) bool {
	if depth > 4 {
		return false
	}
	if c, ok := constInt(v); ok {
		return c != '\r' && c != '\n'
	}
	sv := strip(v)
	ne := map[int64]bool{}
	for _, at := range facts {
		if at.Kind != "eq" {
			continue
		}
		for _, pr := range [][2]ssa.Value{{at.X, at.Y}, {at.Y, at.X}} {
			if pr[0] == sv {
				if c, ok := constInt(pr[1]); ok {
					if !at.Pos {
						ne[c] = true
					} else if c != '\r' && c != '\n' {
						return true // pinned to another constant
					}
				}
			}
		}
	}
	if ne['\r'] && ne['\n'] {
		return true
	}
	if phi, ok := sv.(*ssa.Phi); ok {
		for i, e := range phi.Edges {
			pred := phi.Block().Preds[i]
			fs := append(append([]Atom{}, facts...), edgeFacts(pred, succIndex(pred, phi.Block()))...)
			if !safeByte(e, fs, depth+1) {
				return false
			}
		}
		return len(phi.Edges) > 0
	}
	if cv, ok := sv.(*ssa.Convert); ok {
		return safeByte(cv.X, facts, depth+1)
	}
	return false
}

// pinnedToLineBreak: facts force v to be CR or LF (an equality with one of them, or a true
// call of a predicate helper every true-path of which pins its argument to CR or LF).
func pinnedToLineBreak(v ssa.Value, facts []Atom) bool {
	sv := strip(v)
	for _, at := range facts {
		if at.Kind == "eq" && at.Pos {
			for _, pr := range [][2]ssa.Value{{at.X, at.Y}, {at.Y, at.X}} {
				if pr[0] == sv {
					if c, ok := constInt(pr[1]); ok && (c == '\r' || c == '\n') {
						return true
					}
				}
			}
		}
		if at.Kind == "call" && at.Pos {
			h := staticCallee(at.Call.Common())
			args := callArgs(at.Call.Common())
			if h == nil || h.Blocks == nil || !inRepo(h) || len(args) != 1 || strip(args[0]) != sv || len(h.Params) != 1 {
				continue
			}
			if predicateTrueOnlyFor(h, h.Params[0], map[int64]bool{'\r': true, '\n': true}) {
				return true
			}
		}
	}
	return false
}

// predicateTrueOnlyFor: every way the boolean function h can return true pins par to one of set.
func predicateTrueOnlyFor(h *ssa.Function, par *ssa.Parameter, set map[int64]bool) bool {
	pinned := func(facts []Atom) bool {
		for _, at := range facts {
			if at.Kind == "eq" && at.Pos {
				for _, pr := range [][2]ssa.Value{{at.X, at.Y}, {at.Y, at.X}} {
					if strip(pr[0]) == ssa.Value(par) {
						if c, ok := constInt(pr[1]); ok && set[c] {
							return true
						}
					}
				}
			}
		}
		return false
	}
	var trueOnly func(v ssa.Value, facts []Atom, d int) bool
	trueOnly = func(v ssa.Value, facts []Atom, d int) bool {
		if d > 4 {
			return false
		}
		if cb, ok := constBool(v); ok {
			return !cb || pinned(facts)
		}
		if phi, ok := v.(*ssa.Phi); ok {
			for i, e := range phi.Edges {
				pred := phi.Block().Preds[i]
				fs := append(append([]Atom{}, facts...), edgeFacts(pred, succIndex(pred, phi.Block()))...)
				if !trueOnly(e, fs, d+1) {
					return false
				}
			}
			return true
		}
		// a comparison: true adds its own atoms
		return pinned(append(append([]Atom{}, facts...), atomsOf(v, true)...))
	}
	for _, r := range returnsOf(h) {
		if len(r.Results) != 1 || !trueOnly(r.Results[0], factsAt(r.Block()), 0) {
			return false
		}
	}
	return true
}

// sanitiserLoop analyses a returned make([]byte, n) inside fn(par).
func sanitiserLoop(mk *ssa.MakeSlice, par *ssa.Parameter) (map[byte]bool, bool, string) {
	none := map[byte]bool{}
	if !isByteSlice(mk.Type()) || mk.Referrers() == nil {
		return none, false, "not a byte slice"
	}
	var stores []*ssa.Store
	var storeIdx []ssa.Value
	var visit func(v ssa.Value, d int) string
	visit = func(v ssa.Value, d int) string {
		if v.Referrers() == nil || d > 3 {
			return ""
		}
		for _, r := range *v.Referrers() {
			switch x := r.(type) {
			case *ssa.IndexAddr:
				if x.Referrers() == nil {
					continue
				}
				for _, rr := range *x.Referrers() {
					switch y := rr.(type) {
					case *ssa.Store:
						if y.Addr != ssa.Value(x) {
							return "an element address is stored somewhere"
						}
						stores = append(stores, y)
						storeIdx = append(storeIdx, x.Index)
					case *ssa.UnOp, *ssa.DebugRef:
					default:
						return "an element address escapes: " + rr.String()
					}
				}
			case *ssa.Return, *ssa.DebugRef:
			case *ssa.Phi:
				if s := visit(x, d+1); s != "" {
					return s
				}
			case *ssa.Slice:
				if s := visit(x, d+1); s != "" {
					return s
				}
			case *ssa.Call:
				if b, ok := x.Common().Value.(*ssa.Builtin); ok && (b.Name() == "len" || b.Name() == "cap") {
					continue
				}
				return "the fresh slice is passed to " + calleeName(x.Common()) + ", which may write any byte into it"
			default:
				return "the fresh slice is used by " + r.String()
			}
		}
		return ""
	}
	if why := visit(mk, 0); why != "" {
		return none, false, why
	}
	for _, st := range stores {
		if !safeByte(st.Val, factsAt(st.Block()), 0) {
			return none, false, fmt.Sprintf("a byte stored into the result (%s) is not proven different from CR and LF", st.Val.Name())
		}
	}
	rem := map[byte]bool{'\r': true, '\n': true}
	// byte preservation: one store, out[i] = in[i] or a replacement taken only for CR/LF, for
	// every i in [0, len(in)) with len(out) == len(in)
	bp := false
	if len(stores) == 1 && sameLin(linOf(mk.Len), lenOf(par)) {
		st, idx := stores[0], storeIdx[0]
		isSrc := func(v ssa.Value) bool {
			ld, ok := strip(v).(*ssa.UnOp)
			if !ok || ld.Op != token.MUL {
				return false
			}
			ia, ok := ld.X.(*ssa.IndexAddr)
			return ok && strip(ia.X) == ssa.Value(par) && sameLin(linOf(ia.Index), linOf(idx))
		}
		valOK := isSrc(st.Val)
		if phi, ok := strip(st.Val).(*ssa.Phi); ok && !valOK {
			valOK = true
			var src ssa.Value
			for _, e := range phi.Edges {
				if isSrc(e) {
					src = e
				}
			}
			for i, e := range phi.Edges {
				if isSrc(e) {
					continue
				}
				pred := phi.Block().Preds[i]
				if _, isC := constInt(e); !isC || src == nil || !pinnedToLineBreak(src, edgeFacts(pred, succIndex(pred, phi.Block()))) {
					valOK = false
				}
			}
		}
		if valOK {
			// the store runs once per index of a full counter loop
			for _, l := range naturalLoops(mk.Parent()) {
				if !l.Blocks[st.Block()] {
					continue
				}
				il := linOf(idx)
				ph, ok := il.base.(*ssa.Phi)
				if !ok || il.isLen || ph.Block() != l.Header {
					continue
				}
				init, step := false, false
				for i, e := range ph.Edges {
					if l.Blocks[l.Header.Preds[i]] {
						if ln := linOf(e); ln.base == ssa.Value(ph) && ln.off == 1 {
							step = true
						}
					} else if cv, ok := constInt(e); ok && cv+il.off == 0 {
						init = true
					}
				}
				domAll := true
				for _, lt := range l.Latch {
					if !st.Block().Dominates(lt) {
						domAll = false
					}
				}
				// exits only on counter >= len
				exitOK := true
				for _, b := range l.sortedBlocks() {
					for k, s := range b.Succs {
						if l.Blocks[s] {
							continue
						}
						okExit := false
						for _, iq := range ineqsOf(edgeFacts(b, k)) {
							if (sameBase(iq.x, lenOf(par)) || sameBase(iq.x, linOf(mk.Len))) && iq.y.base == ssa.Value(ph) && !iq.y.isLen {
								okExit = true
							}
						}
						if !okExit {
							exitOK = false
						}
					}
				}
				if init && step && domAll && exitOK {
					bp = true
				}
			}
		}
	}
	return rem, bp, "fresh slice filled with bytes proven different from CR and LF"
}

func sameLin(a, b lin) bool { return sameBase(a, b) && a.off == b.off }

// appendSanitiser recognises a helper of the shape
//
//	func f(dst []byte, src []byte) []byte { for _, c := range src { ...; dst = append(dst, c') }; return dst }
//
// in which c' is, for every element, either the element itself under facts that exclude CR and
// LF, or a constant other than CR/LF chosen where the element is pinned to CR or LF. The
// result is dst followed by the sanitised copy of src: one byte per element, in order.
// accIdx is the accumulator parameter; returns the source parameter's index.
func appendSanitiser(fn *ssa.Function, accIdx int) (srcIdx int, ok bool, why string) {
	if fn == nil || fn.Blocks == nil || accIdx >= len(fn.Params) {
		return -1, false, "no body"
	}
	loops := naturalLoops(fn)
	if len(loops) != 1 {
		return -1, false, "not exactly one loop"
	}
	l := loops[0]
	// the one append
	var app *ssa.Call
	napp := 0
	other := false
	allInstrs(fn, func(ins ssa.Instruction) {
		switch x := ins.(type) {
		case *ssa.Call:
			if bi, isB := x.Common().Value.(*ssa.Builtin); isB {
				switch bi.Name() {
				case "append":
					napp++
					app = x
				case "len", "cap":
				default:
					other = true
				}
				return
			}
			other = true
		case *ssa.Store:
			// the one-element operand of append(dst, c) is built in a local array
			if ia, isIA := x.Addr.(*ssa.IndexAddr); isIA {
				if al, isAl := ia.X.(*ssa.Alloc); isAl && al.Comment == "varargs" {
					return
				}
			}
			other = true
		case *ssa.Go, *ssa.Defer, *ssa.Send, *ssa.MapUpdate, *ssa.Panic:
			other = true
		}
	})
	if napp != 1 || other {
		return -1, false, "more than the one append happens in the helper"
	}
	if !l.Blocks[app.Block()] {
		return -1, false, "the append is outside the loop"
	}
	for _, latch := range l.Latch {
		if !app.Block().Dominates(latch) {
			return -1, false, "a cycle of the loop appends nothing"
		}
	}
	args := app.Common().Args
	if len(args) != 2 {
		return -1, false, "append with other than one extra operand"
	}
	// append(dst, c): the variadic operand is a one-element slice literal
	elems, isLit := arrayLitElems(args[1])
	if !isLit || len(elems) != 1 {
		return -1, false, "the append does not add exactly one byte"
	}
	// accumulator chain: append's first operand is the header phi of (param, append)
	accPhi, isPhi := args[0].(*ssa.Phi)
	if !isPhi || accPhi.Block() != l.Header {
		return -1, false, "the accumulator is not carried by the loop"
	}
	for _, e := range accPhi.Edges {
		if e != ssa.Value(fn.Params[accIdx]) && e != ssa.Value(app) {
			return -1, false, "the accumulator is replaced inside the loop"
		}
	}
	for _, r := range returnsOf(fn) {
		if len(r.Results) != 1 || (r.Results[0] != ssa.Value(accPhi) && r.Results[0] != ssa.Value(fn.Params[accIdx])) {
			return -1, false, "a return does not hand back the accumulator"
		}
	}
	// the element: a load of &src[i] with i the range counter of the loop over src
	var elem *ssa.UnOp
	var find func(v ssa.Value, d int)
	find = func(v ssa.Value, d int) {
		if d > 4 || elem != nil {
			return
		}
		switch x := v.(type) {
		case *ssa.UnOp:
			if ia, isIA := x.X.(*ssa.IndexAddr); isIA && x.Op == token.MUL {
				if _, isPar := ia.X.(*ssa.Parameter); isPar {
					elem = x
				}
			}
		case *ssa.Phi:
			for _, e := range x.Edges {
				find(e, d+1)
			}
		case *ssa.Convert:
			find(x.X, d+1)
		}
	}
	find(elems[0], 0)
	if elem == nil {
		return -1, false, "the appended byte is not an element of a parameter"
	}
	ia := elem.X.(*ssa.IndexAddr)
	src := ia.X.(*ssa.Parameter)
	for i, p := range fn.Params {
		if p == src {
			srcIdx = i
		}
	}
	// range counter: phi(-1, i+1) at the header, incremented once, bounded by len(src)
	inc, isInc := ia.Index.(*ssa.BinOp)
	if !isInc || inc.Op != token.ADD {
		return -1, false, "the element index is not the range counter"
	}
	cphi, isCPhi := inc.X.(*ssa.Phi)
	one, isOne := constInt(inc.Y)
	if !isCPhi || !isOne || one != 1 || cphi.Block() != l.Header || cphi.Comment != "rangeindex" {
		return -1, false, "the loop is not a range over the source"
	}
	// every appended byte is safe, and is the element wherever the element is safe
	var check func(v ssa.Value, facts []Atom, d int) bool
	check = func(v ssa.Value, facts []Atom, d int) bool {
		if d > 4 {
			return false
		}
		if v == ssa.Value(elem) {
			return safeByte(elem, facts, 0)
		}
		if c, isC := constInt(v); isC {
			return c != '\r' && c != '\n' && pinnedToLineBreak(elem, facts)
		}
		if phi, isP := v.(*ssa.Phi); isP {
			for i, e := range phi.Edges {
				pred := phi.Block().Preds[i]
				fs := append(append(append([]Atom{}, facts...), factsAt(pred)...), edgeFacts(pred, succIndex(pred, phi.Block()))...)
				if c, isC := constInt(e); isC && c != '\r' && c != '\n' && pinnedOnEveryWayInto(elem, pred, 0) {
					continue
				}
				if !check(e, fs, d+1) {
					return false
				}
			}
			return len(phi.Edges) > 0
		}
		return false
	}
	if !check(elems[0], factsAt(app.Block()), 0) {
		return -1, false, "the appended byte may be CR or LF, or differs from the element where the element is neither"
	}
	return srcIdx, true, ""
}

// pinnedOnEveryWayInto: block b is entered only over edges on which v is known to be CR or LF
// (the join of "c == cr" and "c == lf" branches).
func pinnedOnEveryWayInto(v ssa.Value, b *ssa.BasicBlock, d int) bool {
	if d > 3 || len(b.Preds) == 0 {
		return false
	}
	if pinnedToLineBreak(v, factsAt(b)) {
		return true
	}
	for _, p := range b.Preds {
		fs := append(append([]Atom{}, factsAt(p)...), edgeFacts(p, succIndex(p, b))...)
		if pinnedToLineBreak(v, fs) {
			continue
		}
		if len(p.Succs) == 1 && pinnedOnEveryWayInto(v, p, d+1) {
			continue
		}
		return false
	}
	return true
}
